// knobrw turns named integer constants of one engine package into per-run tunable knobs, in a COPY of the
// package's files (the copies are overlaid at build time, /repo is never written):
//
//	const maxBlockLength = 8 * 1024      stays (now unused)
//	... len(x) > maxBlockLength ...      becomes  ... len(x) > int(verifKnob_maxBlockLength) ...
//
// Every use is wrapped in a conversion to the type the untyped constant had AT THAT USE (go/types records it), so
// the rewritten package type-checks exactly as before. A generated file declares `var verifKnob_<name> int64 =
// <the constant's value>` and `func VerifKnobs() map[string]*int64`. With the defaults the package behaves as shipped.
//
// usage: knobrw -repo DIR -overlay overlay.json -tags verif -pkg banyand/measure -consts a,b,c -out DIR
// stdout: one line per rewritten file "<original path>\t<new path>" (the generated file has original path
// <repo>/<pkg>/zz_verif_knobs.go), then "knobs <n uses>".
package main

import (
	"bytes"
	"encoding/json"
	"flag"
	"fmt"
	"go/ast"
	"go/constant"
	"go/importer"
	"go/parser"
	"go/printer"
	"go/token"
	"go/types"
	"io"
	"os"
	"os/exec"
	"path/filepath"
	"sort"
	"strings"
)

func die(f string, a ...any) {
	fmt.Fprintf(os.Stderr, "knobrw: "+f+"\n", a...)
	os.Exit(1)
}

type listed struct {
	ImportPath string
	Export     string
	Dir        string
	Name       string
	GoFiles    []string
}

func main() {
	repo := flag.String("repo", "/repo", "")
	overlay := flag.String("overlay", "", "")
	tags := flag.String("tags", "verif", "")
	pkg := flag.String("pkg", "", "package dir relative to the repo")
	constsF := flag.String("consts", "", "comma separated constant names")
	out := flag.String("out", "", "output dir")
	flag.Parse()
	names := map[string]bool{}
	for _, n := range strings.Split(*constsF, ",") {
		if n = strings.TrimSpace(n); n != "" {
			names[n] = true
		}
	}
	repl := map[string]string{}
	if *overlay != "" {
		b, err := os.ReadFile(*overlay)
		if err != nil {
			die("%v", err)
		}
		var o struct{ Replace map[string]string }
		if err = json.Unmarshal(b, &o); err != nil {
			die("%v", err)
		}
		repl = o.Replace
	}
	args := []string{"list", "-export", "-deps", "-json=ImportPath,Export,Dir,Name,GoFiles", "-tags", *tags}
	if *overlay != "" {
		args = append(args, "-overlay", *overlay)
	}
	args = append(args, "./"+*pkg)
	cmd := exec.Command("go", args...)
	cmd.Dir = *repo
	var stderr bytes.Buffer
	cmd.Stderr = &stderr
	outb, err := cmd.Output()
	if err != nil {
		die("go list: %v\n%s", err, stderr.String())
	}
	exports := map[string]string{}
	var target *listed
	dec := json.NewDecoder(bytes.NewReader(outb))
	for {
		var l listed
		if err = dec.Decode(&l); err == io.EOF {
			break
		} else if err != nil {
			die("go list output: %v", err)
		}
		exports[l.ImportPath] = l.Export
		if filepath.Clean(l.Dir) == filepath.Clean(filepath.Join(*repo, *pkg)) {
			ll := l
			target = &ll
		}
	}
	if target == nil {
		die("package %s not listed", *pkg)
	}
	fset := token.NewFileSet()
	var files []*ast.File
	var paths []string
	for _, f := range target.GoFiles {
		p := filepath.Join(target.Dir, f)
		src := p
		if r, ok := repl[p]; ok {
			src = r
		}
		b, rerr := os.ReadFile(src)
		if rerr != nil {
			die("%v", rerr)
		}
		af, perr := parser.ParseFile(fset, p, b, parser.ParseComments)
		if perr != nil {
			die("%v", perr)
		}
		files = append(files, af)
		paths = append(paths, p)
	}
	imp := importer.ForCompiler(fset, "gc", func(path string) (io.ReadCloser, error) {
		e := exports[path]
		if e == "" {
			return nil, fmt.Errorf("no export data for %s", path)
		}
		return os.Open(e)
	})
	info := &types.Info{Types: map[ast.Expr]types.TypeAndValue{}, Uses: map[*ast.Ident]types.Object{}, Defs: map[*ast.Ident]types.Object{}}
	conf := types.Config{Importer: imp, Error: func(error) {}}
	tpkg, _ := conf.Check(target.ImportPath, fset, files, info)
	if tpkg == nil {
		die("type check produced no package")
	}
	values := map[string]int64{}
	objs := map[types.Object]string{}
	for n := range names {
		o := tpkg.Scope().Lookup(n)
		c, ok := o.(*types.Const)
		if !ok {
			die("%s.%s is not a package-level constant", *pkg, n)
		}
		v, exact := constant.Int64Val(constant.ToInt(c.Val()))
		if !exact {
			die("%s is not an integer constant", n)
		}
		values[n] = v
		objs[o] = n
	}
	qual := func(p *types.Package) string {
		if p == tpkg {
			return ""
		}
		return p.Name()
	}
	uses := 0
	changed := map[int]bool{}
	for i, f := range files {
		i := i
		rewrite := func(e ast.Expr) ast.Expr {
			id, ok := e.(*ast.Ident)
			if !ok {
				return nil
			}
			name, ok := objs[info.Uses[id]]
			if !ok {
				return nil
			}
			tv, ok := info.Types[id]
			if !ok || tv.Type == nil {
				die("%s: no type recorded for use of %s", fset.Position(id.Pos()), name)
			}
			if b, isB := tv.Type.(*types.Basic); isB && b.Info()&types.IsUntyped != 0 {
				die("%s: %s is used in an untyped constant context (%s); cannot be a knob", fset.Position(id.Pos()), name, b.Name())
			}
			uses++
			changed[i] = true
			ts := types.TypeString(tv.Type, qual)
			texpr, perr := parser.ParseExpr(ts)
			if perr != nil {
				die("%s: type %s: %v", fset.Position(id.Pos()), ts, perr)
			}
			return &ast.CallExpr{Fun: &ast.ParenExpr{X: texpr}, Args: []ast.Expr{ast.NewIdent("verifKnob_" + name)}}
		}
		rewriteExprs(f, rewrite)
	}
	if err = os.MkdirAll(filepath.Join(*out, *pkg), 0o755); err != nil {
		die("%v", err)
	}
	for i, f := range files {
		if !changed[i] {
			continue
		}
		var buf bytes.Buffer
		if err = (&printer.Config{Mode: printer.UseSpaces | printer.TabIndent, Tabwidth: 8}).Fprint(&buf, fset, f); err != nil {
			die("%v", err)
		}
		dst := filepath.Join(*out, *pkg, filepath.Base(paths[i]))
		if err = os.WriteFile(dst, buf.Bytes(), 0o644); err != nil {
			die("%v", err)
		}
		fmt.Printf("%s\t%s\n", paths[i], dst)
	}
	var g bytes.Buffer
	fmt.Fprintf(&g, "//go:build verif\n\n// Code generated by /verif/tools/knobrw. DO NOT EDIT.\n\npackage %s\n\n", target.Name)
	sorted := make([]string, 0, len(values))
	for n := range values {
		sorted = append(sorted, n)
	}
	sort.Strings(sorted)
	for _, n := range sorted {
		fmt.Fprintf(&g, "var verifKnob_%s int64 = %d\n", n, values[n])
	}
	fmt.Fprintf(&g, "\n// VerifKnobs returns the package's size thresholds that the simulator may shrink per run (defaults = shipped constants).\nfunc VerifKnobs() map[string]*int64 {\n\treturn map[string]*int64{\n")
	for _, n := range sorted {
		fmt.Fprintf(&g, "\t\t%q: &verifKnob_%s,\n", n, n)
	}
	fmt.Fprintf(&g, "\t}\n}\n")
	gp := filepath.Join(*out, *pkg, "zz_verif_knobs.go")
	if err = os.WriteFile(gp, g.Bytes(), 0o644); err != nil {
		die("%v", err)
	}
	fmt.Printf("%s\t%s\n", filepath.Join(target.Dir, "zz_verif_knobs.go"), gp)
	total := 0
	for id, o := range info.Uses {
		if _, ok := objs[o]; ok {
			_ = id
			total++
		}
	}
	// uses inside constant declarations stay constants (a derived constant keeps the shipped value)
	inConst := 0
	for _, f := range files {
		for _, d := range f.Decls {
			gd, ok := d.(*ast.GenDecl)
			if !ok || gd.Tok != token.CONST {
				continue
			}
			for _, sp := range gd.Specs {
				vs, ok := sp.(*ast.ValueSpec)
				if !ok {
					continue
				}
				for _, v := range vs.Values {
					ast.Inspect(v, func(n ast.Node) bool {
						if id, ok := n.(*ast.Ident); ok {
							if _, hit := objs[info.Uses[id]]; hit {
								inConst++
							}
						}
						return true
					})
				}
			}
		}
	}
	fmt.Printf("knobs %d of %d uses\n", uses+inConst, total)
	if inConst > 0 {
		fmt.Printf("note %d use(s) inside constant declarations keep the shipped value\n", inConst)
	}
}

// rewriteExprs applies f to every expression slot of the file; a non-nil result replaces the slot.
func rewriteExprs(file *ast.File, f func(ast.Expr) ast.Expr) {
	var fix func(e *ast.Expr)
	fix = func(e *ast.Expr) {
		if *e == nil {
			return
		}
		if r := f(*e); r != nil {
			*e = r
		}
	}
	fixList := func(l []ast.Expr) {
		for i := range l {
			fix(&l[i])
		}
	}
	ast.Inspect(file, func(n ast.Node) bool {
		switch x := n.(type) {
		case *ast.BinaryExpr:
			fix(&x.X)
			fix(&x.Y)
		case *ast.UnaryExpr:
			fix(&x.X)
		case *ast.ParenExpr:
			fix(&x.X)
		case *ast.CallExpr:
			fixList(x.Args)
		case *ast.IndexExpr:
			fix(&x.Index)
		case *ast.SliceExpr:
			fix(&x.Low)
			fix(&x.High)
			fix(&x.Max)
		case *ast.KeyValueExpr:
			fix(&x.Value)
		case *ast.CompositeLit:
			fixList(x.Elts)
		case *ast.AssignStmt:
			fixList(x.Rhs)
		case *ast.ReturnStmt:
			fixList(x.Results)
		case *ast.ValueSpec:
			if _, isConst := constParent[x]; !isConst {
				fixList(x.Values)
			}
		case *ast.GenDecl:
			if x.Tok == token.CONST {
				for _, s := range x.Specs {
					if vs, ok := s.(*ast.ValueSpec); ok {
						constParent[vs] = true
					}
				}
			}
		case *ast.IfStmt:
			fix(&x.Cond)
		case *ast.ForStmt:
			fix(&x.Cond)
		case *ast.SwitchStmt:
			fix(&x.Tag)
		case *ast.CaseClause:
			fixList(x.List)
		case *ast.SendStmt:
			fix(&x.Value)
		case *ast.IncDecStmt:
		case *ast.RangeStmt:
			fix(&x.X)
		case *ast.StarExpr:
		case *ast.SelectorExpr:
		case *ast.ExprStmt:
		}
		return true
	})
}

var constParent = map[*ast.ValueSpec]bool{}
