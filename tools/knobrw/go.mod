module knobrw

go 1.25.13
